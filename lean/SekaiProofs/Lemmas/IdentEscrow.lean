import SekaiProofs.Lemmas.IdentFrames
/-! Escrow invariant: the gov module account holds exactly the tips of the pending requests. -/
namespace Sekai.Ident

def tipIn (d : Nat) (q : Request) : Nat := if q.denom == d then q.amount else 0

theorem sumTips_cons (d : Nat) (q : Request) (l : List Request) : sumTips d (q :: l) = tipIn d q + sumTips d l := rfl

/-- request ids are pairwise different and never above the counter -/
def ReqWF (S : State) : Prop :=
  S.reqs.Pairwise (fun a b => a.id ≠ b.id) ∧ ∀ q ∈ S.reqs, q.id ≤ S.lastReqId

def EscrowEq (S : State) : Prop := ∀ d, escrowGet S d = sumTips d S.reqs

def EscInv (S : State) : Prop := ReqWF S ∧ EscrowEq S

theorem filter_ne_self (l : List Request) (id : Nat) (h : ∀ x ∈ l, x.id ≠ id) : l.filter (fun x => x.id != id) = l := by
  rw [List.filter_eq_self]
  intro x hx; simpa using h x hx

theorem sumTips_split (d id : Nat) (l : List Request) (q : Request) (hp : l.Pairwise (fun a b => a.id ≠ b.id))
    (hf : l.find? (fun x => x.id == id) = some q) :
    sumTips d l = tipIn d q + sumTips d (l.filter (fun x => x.id != id)) := by
  induction l with
  | nil => cases hf
  | cons x xs ih =>
    rw [List.pairwise_cons] at hp
    by_cases hx : x.id = id
    · have : q = x := by simp [List.find?_cons, hx] at hf; exact hf.symm
      subst this
      have hfil : (q :: xs).filter (fun y => y.id != id) = xs := by
        simp only [List.filter_cons, hx, bne_self_eq_false, Bool.false_eq_true, if_false]
        exact filter_ne_self xs id (fun y hy e => hp.1 y hy (hx.trans e.symm))
      rw [hfil, sumTips_cons]
    · have hx' : (x.id == id) = false := by simpa using hx
      have hf' : xs.find? (fun y => y.id == id) = some q := by simpa [List.find?_cons, hx'] using hf
      have hfil : (x :: xs).filter (fun y => y.id != id) = x :: xs.filter (fun y => y.id != id) := by
        simp [List.filter_cons, hx]
      rw [hfil, sumTips_cons, sumTips_cons, ih hp.2 hf']
      omega

theorem deleteReq_reqs (S : State) (id : Nat) : (deleteReq S id).reqs = S.reqs.filter (fun x => x.id != id) := by
  unfold deleteReq
  cases hd : getReq S id with
  | none =>
    simp only
    symm
    apply filter_ne_self
    intro x hx e
    unfold getReq at hd
    rw [List.find?_eq_none] at hd
    have := hd x hx
    simp [e] at this
  | some q => rfl

theorem ReqWF_deleteReq {S : State} (id : Nat) (h : ReqWF S) : ReqWF (deleteReq S id) := by
  constructor
  · rw [deleteReq_reqs]; exact h.1.filter _
  · intro q hq
    rw [deleteReq_reqs] at hq
    simp only [deleteReq_lastReqId]
    exact h.2 q (List.mem_filter.mp hq).1

theorem getReq_of_mem {S : State} (h : ReqWF S) {q : Request} (hq : q ∈ S.reqs) : getReq S q.id = some q := by
  unfold getReq
  have hp := h.1
  revert hp hq
  generalize S.reqs = l
  intro hq hp
  induction l with
  | nil => cases hq
  | cons x xs ih =>
    rw [List.pairwise_cons] at hp
    rcases List.mem_cons.mp hq with e | hm
    · subst e; simp
    · have : x.id ≠ q.id := hp.1 q hm
      have h' : (x.id == q.id) = false := by simpa using this
      simp only [List.find?_cons, h']
      exact ih hm hp.2

/-- the three fields the escrow invariant reads are untouched -/
structure EscFrame (S S' : State) : Prop where
  reqs : S'.reqs = S.reqs
  lastReqId : S'.lastReqId = S.lastReqId
  escrow : S'.escrow = S.escrow

theorem EscFrame.trans {A B C : State} (h1 : EscFrame A B) (h2 : EscFrame B C) : EscFrame A C :=
  ⟨h2.reqs.trans h1.reqs, h2.lastReqId.trans h1.lastReqId, h2.escrow.trans h1.escrow⟩
theorem ReqFrame.esc {S S' : State} (h : ReqFrame S S') : EscFrame S S' := ⟨h.reqs, h.lastReqId, h.escrow⟩

theorem escrowGet_congr {S S' : State} (h : S'.escrow = S.escrow) (d : Nat) : escrowGet S' d = escrowGet S d := by
  unfold escrowGet; rw [h]

theorem EscInv_frame {S S' : State} (f : EscFrame S S') (h : EscInv S) : EscInv S' := by
  refine ⟨⟨?_, ?_⟩, ?_⟩
  · rw [f.reqs]; exact h.1.1
  · intro q hq; rw [f.reqs] at hq; rw [f.lastReqId]; exact h.1.2 q hq
  · intro d; rw [escrowGet_congr f.escrow, f.reqs]; exact h.2 d

/-- paying a pending request's tip out of escrow and deleting the request keeps the invariant -/
theorem EscInv_pay_delete {S S1 : State} {id : Nat} {q : Request} {to : Nat} (h : EscInv S) (hq : getReq S id = some q)
    (hpay : (q.amount ≠ 0 ∧ sendFromGov S to q.denom q.amount = some S1) ∨ (q.amount = 0 ∧ S1 = S)) :
    EscInv (deleteReq S1 id) ∧ S1.reqs = S.reqs ∧ S1.lastReqId = S.lastReqId := by
  have hsplit := fun d => sumTips_split d id S.reqs q h.1.1 (by unfold getReq at hq; exact hq)
  rcases hpay with ⟨hne, hs⟩ | ⟨h0, rfl⟩
  · unfold sendFromGov at hs
    split at hs
    · cases hs
    · rename_i hge
      cases hs
      refine ⟨⟨?_, ?_⟩, rfl, rfl⟩
      · exact ReqWF_deleteReq id (S := balSet (escrowSet S q.denom (escrowGet S q.denom - q.amount)) to q.denom _) ⟨h.1.1, h.1.2⟩
      · intro d
        rw [deleteReq_reqs]
        have e1 : ∀ X, escrowGet (deleteReq (balSet (escrowSet S q.denom (escrowGet S q.denom - q.amount)) to q.denom X) id) d
            = if q.denom = d then escrowGet S q.denom - q.amount else escrowGet S d := by
          intro X
          rw [escrowGet_congr (deleteReq_escrow _ _), escrowGet_balSet, escrowGet_escrowSet]
        rw [e1]
        have hd := hsplit d
        have he := h.2 d
        change sumTips d S.reqs = _ at hd
        show _ = sumTips d (S.reqs.filter _)
        unfold tipIn at hd
        by_cases hdd : q.denom = d
        · subst hdd; simp at hd ⊢; omega
        · have : (q.denom == d) = false := by simpa using hdd
          simp [hdd, this] at hd ⊢; omega
  · refine ⟨⟨ReqWF_deleteReq id h.1, ?_⟩, rfl, rfl⟩
    intro d
    rw [deleteReq_reqs, escrowGet_congr (deleteReq_escrow _ _)]
    have hd := hsplit d
    have he := h.2 d
    unfold tipIn at hd
    simp [h0] at hd
    omega

theorem EscInv_cancelReq {S S' : State} {a id : Nat} (h : EscInv S) (hc : cancelReq S a id = some S') : EscInv S' := by
  obtain ⟨q, S1, hq, _, hpay, rfl⟩ := cancelReq_some hc
  exact (EscInv_pay_delete h hq hpay).1

theorem EscInv_cancelInvalidLoop {a : Nat} {ids : List Nat} (rids : List Nat) {S S' : State} (h : EscInv S)
    (hc : cancelInvalidLoop a ids rids S = some S') : EscInv S' := by
  induction rids generalizing S with
  | nil => simp [cancelInvalidLoop] at hc; subst hc; exact h
  | cons rid rest ih =>
    unfold cancelInvalidLoop at hc
    split at hc
    · cases hc
    · split at hc
      · split at hc
        · cases hc
        · rename_i S1 h1
          exact ih (EscInv_cancelReq h h1) hc
      · exact ih h hc

theorem EscInv_cancelInvalid {S S' : State} {a : Nat} {ids : List Nat} (h : EscInv S)
    (hc : cancelInvalid S a ids = some S') : EscInv S' :=
  EscInv_cancelInvalidLoop _ h hc

theorem EscInv_registerRecords {S S' : State} {a : Nat} {infos : List Info} (h : EscInv S)
    (hr : registerRecords S a infos = some S') : EscInv S' := by
  unfold registerRecords at hr
  split at hr
  · cases hr
  · split at hr
    · cases hr
    · rename_i S1 aff ha
      exact EscInv_cancelInvalid (EscInv_frame (regApply_reqFrame _ ha).esc h) hr

theorem EscInv_deleteRecords {S S' : State} {a : Nat} {keys : List String} (h : EscInv S)
    (hd : deleteRecords S a keys = some S') : EscInv S' := by
  unfold deleteRecords at hd
  split at hd
  · cases hd
  · simp only at hd
    split at hd
    · cases hd
    · rename_i S2 hl
      refine EscInv_cancelInvalid (EscInv_frame (deleteLoop_reqFrame _ hl).esc ?_) hd
      exact EscInv_frame ⟨rfl, rfl, rfl⟩ h

theorem EscInv_requestVerify {S S' : State} {a v : Nat} {ids : List Nat} {d n : Nat} (h : EscInv S)
    (hr : requestVerify S a v ids d n = some S') : EscInv S' := by
  unfold requestVerify at hr
  simp only at hr
  split at hr
  · cases hr
  · split at hr
    · cases hr
    · rename_i le _
      split at hr
      · cases hr
      · have hfresh : ∀ x ∈ S.reqs, x.id ≠ S.lastReqId + 1 := fun x hx e => by have := h.1.2 x hx; omega
        have hreqs : (setReq S ⟨S.lastReqId + 1, a, v, ids, d, n, le⟩).reqs = ⟨S.lastReqId + 1, a, v, ids, d, n, le⟩ :: S.reqs := by
          simp only [setReq]; rw [filter_ne_self S.reqs _ hfresh]
        have wf : ReqWF { setReq S ⟨S.lastReqId + 1, a, v, ids, d, n, le⟩ with lastReqId := S.lastReqId + 1 } := by
          constructor
          · show (setReq S _).reqs.Pairwise _
            rw [hreqs, List.pairwise_cons]
            exact ⟨fun x hx => (hfresh x hx).symm, h.1.1⟩
          · intro q hq
            change q ∈ (setReq S _).reqs at hq
            rw [hreqs] at hq
            show q.id ≤ S.lastReqId + 1
            rcases List.mem_cons.mp hq with e | hm
            · rw [e]; exact Nat.le_refl _
            · have := h.1.2 q hm; omega
        split at hr
        · rename_i hn
          unfold sendToGov at hr
          split at hr
          · cases hr
          · cases hr
            refine ⟨wf, ?_⟩
            intro d'
            show escrowGet (escrowSet (balSet _ a d _) d _) d' = sumTips d' (setReq S _).reqs
            rw [hreqs, sumTips_cons, escrowGet_escrowSet]
            have he := h.2 d'
            unfold tipIn
            by_cases hdd : d = d'
            · subst hdd
              simp only [if_true, beq_self_eq_true]
              show escrowGet S d + n = n + sumTips d S.reqs
              omega
            · have : (d == d') = false := by simpa using hdd
              simp only [if_neg hdd, this, Bool.false_eq_true, if_false, Nat.zero_add]
              exact he
        · rename_i hn
          have hn0 : n = 0 := by simpa using hn
          cases hr
          refine ⟨wf, ?_⟩
          intro d'
          show escrowGet S d' = sumTips d' (setReq S _).reqs
          rw [hreqs, sumTips_cons]
          unfold tipIn
          simp only [hn0, ite_self, Nat.zero_add]
          exact h.2 d'

theorem EscInv_handleVerify {S S' : State} {v id : Nat} {yes : Bool} (h : EscInv S)
    (hh : handleVerify S v id yes = some S') : EscInv S' := by
  unfold handleVerify at hh
  split at hh
  · cases hh
  · rename_i q hq
    split at hh
    · cases hh
    · split at hh
      · cases hh
      · rename_i S1 hpay
        have hpay' : (q.amount ≠ 0 ∧ sendFromGov S v q.denom q.amount = some S1) ∨ (q.amount = 0 ∧ S1 = S) := by
          by_cases h0 : q.amount = 0
          · right; simp [h0] at hpay; exact ⟨h0, hpay.symm⟩
          · left; simp [h0] at hpay; exact ⟨h0, hpay⟩
        have key := EscInv_pay_delete h hq hpay'
        split at hh
        · cases hh
        · split at hh
          · cases hh; exact key.1
          · split at hh
            · cases hh
            · rename_i S2 ha
              cases hh
              -- the approve loop touches records only: deleting the request after it is the same on the request side
              have f := approveLoop_reqFrame _ ha
              have e1 : (deleteReq S2 id).reqs = (deleteReq S1 id).reqs := by rw [deleteReq_reqs, deleteReq_reqs, f.reqs]
              refine ⟨⟨?_, ?_⟩, ?_⟩
              · rw [e1]; exact key.1.1.1
              · intro x hx; rw [e1] at hx
                have := key.1.1.2 x hx
                simpa [f.lastReqId] using this
              · intro d
                rw [e1, escrowGet_congr (deleteReq_escrow _ _), escrowGet_congr f.escrow]
                have := key.1.2 d
                rwa [escrowGet_congr (deleteReq_escrow _ _)] at this

theorem collectReqs_get {S : State} (ids : List Nat) {qs : List Request} (h : collectReqs S ids = some qs) :
    ∀ q ∈ qs, getReq S q.id = some q := by
  induction ids generalizing qs with
  | nil => simp [collectReqs] at h; subst h; intro q hq; cases hq
  | cons id rest ih =>
    unfold collectReqs at h
    split at h
    · cases h
    · rename_i q0 hq0
      cases hc : collectReqs S rest with
      | none => rw [hc] at h; cases h
      | some l =>
        rw [hc] at h
        simp only [Option.map_some, Option.some.injEq] at h
        subst h
        intro q hq
        rcases List.mem_cons.mp hq with e | hm
        · rw [e, (getReq_mem hq0).2]; exact hq0
        · exact ih hc q hm

theorem EscInv_moveReqs (f : Request → Request) (hf : ∀ q, (f q).id = q.id ∧ (f q).denom = q.denom ∧ (f q).amount = q.amount)
    (qs : List Request) {S : State} (h : EscInv S)
    (hqs : ∀ q ∈ qs, ∃ q0, getReq S q.id = some q0 ∧ q0.denom = q.denom ∧ q0.amount = q.amount) :
    EscInv (moveReqs f qs S) := by
  induction qs generalizing S with
  | nil => exact h
  | cons q rest ih =>
    unfold moveReqs
    obtain ⟨q0, hq0, hd0, ha0⟩ := hqs q List.mem_cons_self
    have hreqs : (setReq (deleteReq S q.id) (f q)).reqs = f q :: S.reqs.filter (fun x => x.id != q.id) := by
      simp only [setReq, (hf q).1]
      rw [deleteReq_reqs, List.filter_filter]
      simp
    apply ih
    · refine ⟨⟨?_, ?_⟩, ?_⟩
      · rw [hreqs, List.pairwise_cons]
        refine ⟨?_, h.1.1.filter _⟩
        intro x hx
        have := (List.mem_filter.mp hx).2
        rw [(hf q).1]
        intro e; simp [e] at this
      · intro x hx
        rw [hreqs] at hx
        rw [setReq_lastReqId, deleteReq_lastReqId]
        rcases List.mem_cons.mp hx with e | hm
        · rw [e, (hf q).1, ← (getReq_mem hq0).2]; exact h.1.2 q0 (getReq_mem hq0).1
        · exact h.1.2 x (List.mem_filter.mp hm).1
      · intro d
        rw [hreqs, sumTips_cons, escrowGet_congr (setReq_escrow _ _), escrowGet_congr (deleteReq_escrow _ _)]
        rw [h.2 d, sumTips_split d q.id S.reqs q0 h.1.1 (by unfold getReq at hq0; exact hq0)]
        unfold tipIn
        rw [(hf q).2.1, (hf q).2.2, hd0, ha0]
    · intro q2 hq2
      obtain ⟨q3, hq3, hd3, ha3⟩ := hqs q2 (List.mem_cons_of_mem _ hq2)
      rw [getReq_setReq, getReq_deleteReq, (hf q).1]
      by_cases e : q.id = q2.id
      · refine ⟨f q, by simp [e], ?_, ?_⟩
        · rw [(hf q).2.1, ← hd0, ← hd3]; rw [e] at hq0; rw [hq0] at hq3; cases hq3; rfl
        · rw [(hf q).2.2, ← ha0, ← ha3]; rw [e] at hq0; rw [hq0] at hq3; cases hq3; rfl
      · exact ⟨q3, by simp [e, hq3], hd3, ha3⟩

theorem rotateChecks_escFrame {S S' : State} {p o n : Nat} {ok : Bool} (h : rotateChecks S p o n ok = some S') : EscFrame S S' := by
  unfold rotateChecks at h
  split at h
  · cases h
  · simp only at h
    split at h
    · cases h
    · split at h
      · cases h
      · split at h
        · cases h
        · split at h
          · cases h
          · split at h
            · cases h
            · cases h; exact ⟨rfl, rfl, rfl⟩

theorem EscInv_rotate {S S' : State} {p o n : Nat} {ok : Bool} (h : EscInv S) (hr : rotate S p o n ok = some S') : EscInv S' := by
  unfold rotate at hr
  split at hr
  · cases hr
  · rename_i S1 h1
    split at hr
    · cases hr
    · rename_i S2 h2
      cases hr
      have u1 : EscInv S1 := EscInv_frame (rotateChecks_escFrame h1) h
      unfold rotateRegistry at h2
      split at h2
      · cases h2
      · rename_i recs hrecs
        split at h2
        · cases h2
        · rename_i S3 hmv
          have u3 : EscInv S3 := EscInv_frame (moveRecords_reqFrame _ hmv).esc u1
          split at h2
          · cases h2
          · rename_i qs1 hq1
            simp only at h2
            split at h2
            · cases h2
            · rename_i qs2 hq2
              cases h2
              have u4 := EscInv_moveReqs (fun q => { q with addr := n }) (fun q => ⟨rfl, rfl, rfl⟩) qs1 u3
                (fun q hq => ⟨q, collectReqs_get _ hq1 q hq, rfl, rfl⟩)
              have u5 := EscInv_moveReqs (fun q => { q with verifier := n }) (fun q => ⟨rfl, rfl, rfl⟩) qs2 u4
                (fun q hq => ⟨q, collectReqs_get _ hq2 q hq, rfl, rfl⟩)
              exact EscInv_frame ⟨rfl, rfl, rfl⟩ u5

theorem setKeysSingle_frames {S S' : State} {new : String} (hs : setKeysSingle S new = some S') :
    S' = { S with uniqueKeys := new } := by
  unfold setKeysSingle at hs
  split at hs
  · cases hs
  · simp only at hs
    split at hs
    · cases hs
    · split at hs
      · cases hs
      · cases hs; rfl

theorem setKeysWhole_frames {S S' : State} {a : Nat} {new : String} (hs : setKeysWhole S a new = some S') :
    S' = { S with uniqueKeys := new } := by
  unfold setKeysWhole at hs
  split at hs
  · cases hs
  · split at hs
    · cases hs
    · cases hs; rfl


/-- every message keeps `escrow = Σ pending tips` (rotation and the whole-record path included) -/
theorem EscInv_apply {S S' : State} {o : Op} (h : EscInv S) (ha : apply S o = some S') : EscInv S' := by
  cases o with
  | register a infos => exact EscInv_registerRecords h (ite_none_some ha)
  | delete a keys => exact EscInv_deleteRecords h ha
  | request a v ids d n => exact EscInv_requestVerify h (ite_none_some ha)
  | handle v id yes => exact EscInv_handleVerify h (ite_none_some ha)
  | cancel a id => exact EscInv_cancelReq h (ite_none_some ha)
  | claimVal a m => exact EscInv_registerRecords h (claimValidator_some ha)
  | claimCouncil a fs =>
    exact EscInv_registerRecords (S := { S with councilors := if S.councilors.contains a then S.councilors else a :: S.councilors })
      (EscInv_frame ⟨rfl, rfl, rfl⟩ h) (claimCouncilor_some ha)
  | setKeysSingle new => rw [setKeysSingle_frames ha]; exact EscInv_frame ⟨rfl, rfl, rfl⟩ h
  | setKeysWhole s new => rw [setKeysWhole_frames ha]; exact EscInv_frame ⟨rfl, rfl, rfl⟩ h
  | setMinTip n => simp only [apply, Option.some.injEq] at ha; subst ha; exact EscInv_frame ⟨rfl, rfl, rfl⟩ h
  | time t => simp only [apply, Option.some.injEq] at ha; subst ha; exact EscInv_frame ⟨rfl, rfl, rfl⟩ h
  | rotate p o n ok => exact EscInv_rotate h ha

theorem EscInv_step {S : State} {o : Op} (h : EscInv S) : EscInv (step S o) := by
  unfold step
  split
  · rename_i S' ha; exact EscInv_apply h ha
  · exact h

theorem EscInv_run (ops : List Op) {S : State} (h : EscInv S) : EscInv (run S ops) := by
  induction ops generalizing S with
  | nil => exact h
  | cons o rest ih => unfold run; simp only [List.foldl_cons]; exact ih (EscInv_step h)

/-! ## a request id, once gone, never comes back -/

/-- the request counter never decreases and no id at or below it is (re)created -/
def ReqMono (S S' : State) : Prop :=
  S.lastReqId ≤ S'.lastReqId ∧ ∀ id, id ≤ S.lastReqId → getReq S id = none → getReq S' id = none

theorem ReqMono.refl (S : State) : ReqMono S S := ⟨Nat.le_refl _, fun _ _ h => h⟩
theorem ReqMono.trans {A B C : State} (h1 : ReqMono A B) (h2 : ReqMono B C) : ReqMono A C :=
  ⟨Nat.le_trans h1.1 h2.1, fun id hid hn => h2.2 id (Nat.le_trans hid h1.1) (h1.2 id hid hn)⟩

theorem ReqMono_of_frame {S S' : State} (hr : S'.reqs = S.reqs) (hl : S'.lastReqId = S.lastReqId) : ReqMono S S' :=
  ⟨by rw [hl]; exact Nat.le_refl _, fun id _ hn => by rw [getReq_congr hr]; exact hn⟩

theorem ReqMono_deleteReq (S : State) (d : Nat) : ReqMono S (deleteReq S d) := by
  refine ⟨by simp, ?_⟩
  intro id _ hn
  rw [getReq_deleteReq]; split
  · rfl
  · exact hn

theorem sendFromGov_reqs {S S' : State} {a d n : Nat} (h : sendFromGov S a d n = some S') :
    S'.reqs = S.reqs ∧ S'.lastReqId = S.lastReqId := by
  unfold sendFromGov at h
  split at h
  · cases h
  · cases h; exact ⟨rfl, rfl⟩

theorem ReqMono_cancelReq {S S' : State} {a id : Nat} (hc : cancelReq S a id = some S') : ReqMono S S' := by
  obtain ⟨q, S1, _, _, hpay, rfl⟩ := cancelReq_some hc
  rcases hpay with ⟨_, hs⟩ | ⟨_, rfl⟩
  · exact (ReqMono_of_frame (sendFromGov_reqs hs).1 (sendFromGov_reqs hs).2).trans (ReqMono_deleteReq _ _)
  · exact ReqMono_deleteReq _ _

theorem ReqMono_cancelInvalidLoop {a : Nat} {ids : List Nat} (rids : List Nat) {S S' : State}
    (hc : cancelInvalidLoop a ids rids S = some S') : ReqMono S S' := by
  induction rids generalizing S with
  | nil => simp [cancelInvalidLoop] at hc; subst hc; exact ReqMono.refl _
  | cons rid rest ih =>
    unfold cancelInvalidLoop at hc
    split at hc
    · cases hc
    · split at hc
      · split at hc
        · cases hc
        · rename_i S1 h1
          exact (ReqMono_cancelReq h1).trans (ih hc)
      · exact ih hc

theorem ReqMono_registerRecords {S S' : State} {a : Nat} {infos : List Info}
    (hr : registerRecords S a infos = some S') : ReqMono S S' := by
  unfold registerRecords at hr
  split at hr
  · cases hr
  · split at hr
    · cases hr
    · rename_i S1 aff ha
      have f := regApply_reqFrame _ ha
      exact (ReqMono_of_frame f.reqs f.lastReqId).trans (ReqMono_cancelInvalidLoop _ hr)

theorem ReqMono_deleteRecords {S S' : State} {a : Nat} {keys : List String}
    (hd : deleteRecords S a keys = some S') : ReqMono S S' := by
  unfold deleteRecords at hd
  split at hd
  · cases hd
  · simp only at hd
    split at hd
    · cases hd
    · rename_i S2 hl
      have f := deleteLoop_reqFrame _ hl
      exact (ReqMono_of_frame f.reqs f.lastReqId).trans (ReqMono_cancelInvalidLoop _ hd)

theorem ReqMono_requestVerify {S S' : State} {a v : Nat} {ids : List Nat} {d n : Nat}
    (hr : requestVerify S a v ids d n = some S') : ReqMono S S' := by
  unfold requestVerify at hr
  simp only at hr
  split at hr
  · cases hr
  · split at hr
    · cases hr
    · rename_i le _
      split at hr
      · cases hr
      · have m1 : ReqMono S { setReq S ⟨S.lastReqId + 1, a, v, ids, d, n, le⟩ with lastReqId := S.lastReqId + 1 } := by
          refine ⟨Nat.le_succ _, ?_⟩
          intro id hid hn
          show getReq (setReq S _) id = none
          rw [getReq_setReq]
          have : S.lastReqId + 1 ≠ id := by omega
          simp [this, hn]
        split at hr
        · unfold sendToGov at hr
          split at hr
          · cases hr
          · cases hr; exact m1.trans (ReqMono_of_frame rfl rfl)
        · cases hr; exact m1

theorem ReqMono_handleVerify {S S' : State} {v id : Nat} {yes : Bool}
    (hh : handleVerify S v id yes = some S') : ReqMono S S' := by
  unfold handleVerify at hh
  split at hh
  · cases hh
  · rename_i q hq
    split at hh
    · cases hh
    · split at hh
      · cases hh
      · rename_i S1 hpay
        have m1 : ReqMono S S1 := by
          by_cases h0 : q.amount = 0
          · simp [h0] at hpay; subst hpay; exact ReqMono.refl _
          · simp [h0] at hpay; exact ReqMono_of_frame (sendFromGov_reqs hpay).1 (sendFromGov_reqs hpay).2
        split at hh
        · cases hh
        · split at hh
          · cases hh; exact m1.trans (ReqMono_deleteReq _ _)
          · split at hh
            · cases hh
            · rename_i S2 ha
              cases hh
              have f := approveLoop_reqFrame _ ha
              exact (m1.trans (ReqMono_of_frame f.reqs f.lastReqId)).trans (ReqMono_deleteReq _ _)

theorem ReqMono_moveReqs (f : Request → Request) (hf : ∀ q, (f q).id = q.id) (qs : List Request) {S : State}
    (hqs : ∀ q ∈ qs, getReq S q.id ≠ none) : ReqMono S (moveReqs f qs S) := by
  induction qs generalizing S with
  | nil => exact ReqMono.refl _
  | cons q rest ih =>
    unfold moveReqs
    have hq := hqs q List.mem_cons_self
    have m1 : ReqMono S (setReq (deleteReq S q.id) (f q)) := by
      refine ⟨by simp, ?_⟩
      intro id _ hn
      rw [getReq_setReq, getReq_deleteReq, hf q]
      by_cases e : q.id = id
      · rw [e] at hq; exact absurd hn hq
      · simp [e, hn]
    refine m1.trans (ih ?_)
    intro q2 hq2
    rw [getReq_setReq, getReq_deleteReq, hf q]
    by_cases e : q.id = q2.id
    · simp [e]
    · simp only [if_neg e]; exact hqs q2 (List.mem_cons_of_mem _ hq2)

theorem ReqMono_rotate {S S' : State} {p o n : Nat} {ok : Bool} (hr : rotate S p o n ok = some S') : ReqMono S S' := by
  unfold rotate at hr
  split at hr
  · cases hr
  · rename_i S1 h1
    split at hr
    · cases hr
    · rename_i S2 h2
      cases hr
      have f1 := rotateChecks_escFrame h1
      have m1 : ReqMono S S1 := ReqMono_of_frame f1.reqs f1.lastReqId
      unfold rotateRegistry at h2
      split at h2
      · cases h2
      · split at h2
        · cases h2
        · rename_i S3 hmv
          have f3 := moveRecords_reqFrame _ hmv
          have m3 : ReqMono S1 S3 := ReqMono_of_frame f3.reqs f3.lastReqId
          split at h2
          · cases h2
          · rename_i qs1 hq1
            simp only at h2
            split at h2
            · cases h2
            · rename_i qs2 hq2
              cases h2
              have m4 := ReqMono_moveReqs (fun q => { q with addr := n }) (fun _ => rfl) qs1 (S := S3)
                (fun q hq => by rw [collectReqs_get _ hq1 q hq]; simp)
              have m5 := ReqMono_moveReqs (fun q => { q with verifier := n }) (fun _ => rfl) qs2
                (S := moveReqs (fun q => { q with addr := n }) qs1 S3)
                (fun q hq => by rw [collectReqs_get _ hq2 q hq]; simp)
              exact (((m1.trans m3).trans m4).trans m5).trans (ReqMono_of_frame rfl rfl)

theorem ReqMono_apply {S S' : State} {o : Op} (ha : apply S o = some S') : ReqMono S S' := by
  cases o with
  | register a infos => exact ReqMono_registerRecords (ite_none_some ha)
  | delete a keys => exact ReqMono_deleteRecords ha
  | request a v ids d n => exact ReqMono_requestVerify (ite_none_some ha)
  | handle v id yes => exact ReqMono_handleVerify (ite_none_some ha)
  | cancel a id => exact ReqMono_cancelReq (ite_none_some ha)
  | claimVal a m => exact ReqMono_registerRecords (claimValidator_some ha)
  | claimCouncil a fs =>
    exact (ReqMono_of_frame rfl rfl).trans (ReqMono_registerRecords
      (S := { S with councilors := if S.councilors.contains a then S.councilors else a :: S.councilors }) (claimCouncilor_some ha))
  | setKeysSingle new => rw [setKeysSingle_frames ha]; exact ReqMono_of_frame rfl rfl
  | setKeysWhole s new => rw [setKeysWhole_frames ha]; exact ReqMono_of_frame rfl rfl
  | setMinTip n => simp only [apply, Option.some.injEq] at ha; subst ha; exact ReqMono_of_frame rfl rfl
  | time t => simp only [apply, Option.some.injEq] at ha; subst ha; exact ReqMono_of_frame rfl rfl
  | rotate p o n ok => exact ReqMono_rotate ha

theorem ReqMono_step (S : State) (o : Op) : ReqMono S (step S o) := by
  unfold step
  split
  · rename_i S' ha; exact ReqMono_apply ha
  · exact ReqMono.refl _

theorem ReqMono_run (ops : List Op) (S : State) : ReqMono S (run S ops) := by
  induction ops generalizing S with
  | nil => exact ReqMono.refl _
  | cons o rest ih => unfold run; simp only [List.foldl_cons]; exact (ReqMono_step S o).trans (ih _)


/-! ## where a tip goes -/

theorem balGet_congr {S S' : State} (h : S'.bal = S.bal) (a d : Nat) : balGet S' a d = balGet S a d := by
  unfold balGet; rw [h]

/-- paying `q`'s tip to `to`: exactly `q.amount` of `q.denom` leaves escrow and reaches `to`; nothing else moves -/
theorem pay_spec {S S1 : State} {q : Request} {to : Nat}
    (hpay : (q.amount ≠ 0 ∧ sendFromGov S to q.denom q.amount = some S1) ∨ (q.amount = 0 ∧ S1 = S)) :
    (∀ a d, balGet S1 a d = balGet S a d + (if a = to ∧ d = q.denom then q.amount else 0)) ∧
    (∀ d, escrowGet S1 d + tipIn d q = escrowGet S d) := by
  rcases hpay with ⟨_, hs⟩ | ⟨h0, rfl⟩
  · unfold sendFromGov at hs
    split at hs
    · cases hs
    · rename_i hge
      cases hs
      constructor
      · intro a d
        rw [balGet_balSet, balGet_escrowSet]
        by_cases h : to = a ∧ q.denom = d
        · obtain ⟨rfl, rfl⟩ := h; simp
        · have h' : ¬ (a = to ∧ d = q.denom) := fun ⟨e1, e2⟩ => h ⟨e1.symm, e2.symm⟩
          simp [h, h']
      · intro d
        rw [escrowGet_balSet, escrowGet_escrowSet]
        unfold tipIn
        by_cases h : q.denom = d
        · subst h; simp; omega
        · have : (q.denom == d) = false := by simpa using h
          simp [h, this]
  · constructor
    · intro a d; simp [h0]
    · intro d; unfold tipIn; simp [h0]

/-- `HandleIdentityRecordsVerifyRequest` succeeded: the request was pending with this verifier, it is gone, and its
tip moved from escrow to the verifier — approve or reject -/
theorem handleVerify_payout {S S' : State} {v id : Nat} {yes : Bool} (hh : handleVerify S v id yes = some S') :
    ∃ q, getReq S id = some q ∧ q.verifier = v ∧ getReq S' id = none ∧
      (∀ a d, balGet S' a d = balGet S a d + (if a = v ∧ d = q.denom then q.amount else 0)) ∧
      (∀ d, escrowGet S' d + tipIn d q = escrowGet S d) := by
  unfold handleVerify at hh
  split at hh
  · cases hh
  · rename_i q hq
    split at hh
    · cases hh
    · rename_i hver
      have hv : v = q.verifier := by simpa using hver
      split at hh
      · cases hh
      · rename_i S1 hpay
        have hpay' : (q.amount ≠ 0 ∧ sendFromGov S v q.denom q.amount = some S1) ∨ (q.amount = 0 ∧ S1 = S) := by
          by_cases h0 : q.amount = 0
          · right; simp [h0] at hpay; exact ⟨h0, hpay.symm⟩
          · left; simp [h0] at hpay; exact ⟨h0, hpay⟩
        obtain ⟨pb, pe⟩ := pay_spec hpay'
        refine ⟨q, hq, hv.symm, ?_⟩
        split at hh
        · cases hh
        · split at hh
          · cases hh
            refine ⟨by rw [getReq_deleteReq]; simp, ?_, ?_⟩
            · intro a d; rw [balGet_congr (deleteReq_bal _ _)]; exact pb a d
            · intro d; rw [escrowGet_congr (deleteReq_escrow _ _)]; exact pe d
          · split at hh
            · cases hh
            · rename_i S2 ha
              cases hh
              have f := approveLoop_reqFrame _ ha
              refine ⟨by rw [getReq_deleteReq]; simp, ?_, ?_⟩
              · intro a d; rw [balGet_congr (deleteReq_bal _ _), balGet_congr f.bal]; exact pb a d
              · intro d; rw [escrowGet_congr (deleteReq_escrow _ _), escrowGet_congr f.escrow]; exact pe d

/-- `CancelIdentityRecordsVerifyRequest` succeeded: the request was pending and the caller is its requester, it is
gone, and its tip moved from escrow back to the requester -/
theorem cancelReq_payout {S S' : State} {a id : Nat} (hc : cancelReq S a id = some S') :
    ∃ q, getReq S id = some q ∧ q.addr = a ∧ getReq S' id = none ∧
      (∀ b d, balGet S' b d = balGet S b d + (if b = a ∧ d = q.denom then q.amount else 0)) ∧
      (∀ d, escrowGet S' d + tipIn d q = escrowGet S d) := by
  obtain ⟨q, S1, hq, ha, hpay, rfl⟩ := cancelReq_some hc
  obtain ⟨pb, pe⟩ := pay_spec hpay
  refine ⟨q, hq, ha, by rw [getReq_deleteReq]; simp, ?_, ?_⟩
  · intro b d; rw [balGet_congr (deleteReq_bal _ _)]; exact pb b d
  · intro d; rw [escrowGet_congr (deleteReq_escrow _ _)]; exact pe d

/-- `RequestIdentityRecordsVerify` succeeded: a request with the next id is pending and its tip moved from the
requester into escrow -/
theorem requestVerify_escrows {S S' : State} {a v : Nat} {ids : List Nat} {d n : Nat}
    (hr : requestVerify S a v ids d n = some S') :
    S'.lastReqId = S.lastReqId + 1 ∧
    (∃ le, getReq S' (S.lastReqId + 1) = some ⟨S.lastReqId + 1, a, v, ids, d, n, le⟩) ∧
    balGet S' a d + n = balGet S a d ∧ escrowGet S' d = escrowGet S d + n := by
  unfold requestVerify at hr
  simp only at hr
  split at hr
  · cases hr
  · split at hr
    · cases hr
    · rename_i le _
      split at hr
      · cases hr
      · split at hr
        · unfold sendToGov at hr
          split at hr
          · cases hr
          · rename_i hge
            cases hr
            refine ⟨rfl, ⟨le, ?_⟩, ?_, ?_⟩
            · show getReq (setReq S _) _ = _
              rw [getReq_setReq]; simp
            · rw [balGet_escrowSet, balGet_balSet]
              simp only [and_self, if_true]
              show balGet S a d - n + n = balGet S a d
              have : ¬ balGet S a d < n := hge
              omega
            · rw [escrowGet_escrowSet]; simp; rfl
        · rename_i hn
          have hn0 : n = 0 := by simpa using hn
          cases hr
          refine ⟨rfl, ⟨le, ?_⟩, by simp [hn0]; rfl, by simp [hn0]; rfl⟩
          show getReq (setReq S _) _ = _
          rw [getReq_setReq]; simp

end Sekai.Ident
