import Sekai.Model.Auth
/-! Helper lemmas and specification vocabulary for C02 (model: `Sekai.Model.Auth`). -/
namespace Sekai.Auth

/-! ## account store -/

theorem set_same (A : Accounts) (a : Addr) (acc : Account) : (A.set a acc) a = some acc := by
  simp [Accounts.set]

theorem set_other (A : Accounts) {a b : Addr} (acc : Account) (h : b ≠ a) : (A.set a acc) b = A b := by
  simp [Accounts.set, h]

/-- `B` is `A` with, possibly, keys installed on accounts that had none: same accounts, same sequences and
account numbers, keys on record untouched -/
def PkExt (A B : Accounts) : Prop :=
  ∀ a, (A a = none → B a = none) ∧
    ∀ acc, A a = some acc → ∃ acc', B a = some acc' ∧ acc'.seq = acc.seq ∧ acc'.num = acc.num ∧
      (∀ k, acc.pk = some k → acc'.pk = some k)

theorem PkExt.refl (A : Accounts) : PkExt A A := by
  intro a; exact ⟨fun h => h, fun acc h => ⟨acc, h, rfl, rfl, fun _ hk => hk⟩⟩

theorem PkExt.trans {A B C : Accounts} (h1 : PkExt A B) (h2 : PkExt B C) : PkExt A C := by
  intro a
  refine ⟨fun h => (h2 a).1 ((h1 a).1 h), fun acc h => ?_⟩
  obtain ⟨acc1, hb, hs, hn, hk⟩ := (h1 a).2 acc h
  obtain ⟨acc2, hc, hs2, hn2, hk2⟩ := (h2 a).2 acc1 hb
  exact ⟨acc2, hc, by omega, by omega, fun k hkk => hk2 k (hk k hkk)⟩

theorem PkExt.install (A : Accounts) (s : Addr) (acc : Account) (k : Key) (h : A s = some acc) (hpk : acc.pk = none) :
    PkExt A (A.set s { acc with pk := some k }) := by
  intro a
  by_cases ha : a = s
  · subst ha
    refine ⟨fun hn => by simp [hn] at h, fun acc0 h0 => ?_⟩
    rw [h] at h0; cases h0
    exact ⟨_, set_same _ _ _, rfl, rfl, fun k' hk' => by simp [hpk] at hk'⟩
  · rw [set_other _ _ ha]
    exact ⟨fun hn => hn, fun acc0 h0 => ⟨acc0, h0, rfl, rfl, fun _ hk => hk⟩⟩

theorem setPubKeys_ext : ∀ (pks : List (Option Key)) (ss : List Addr) (A B : Accounts),
    setPubKeys A pks ss = .ok B → PkExt A B := by
  intro pks
  induction pks with
  | nil => intro ss A B h; simp [setPubKeys] at h; subst h; exact PkExt.refl _
  | cons pk pks ih =>
    intro ss A B h
    cases pk with
    | none => simp only [setPubKeys] at h; exact ih _ _ _ h
    | some k =>
      cases ss with
      | nil => simp [setPubKeys] at h
      | cons s ss =>
        simp only [setPubKeys] at h
        cases hA : A s with
        | none => simp [hA] at h
        | some acc =>
          simp only [hA] at h
          cases hpk : acc.pk with
          | some k0 => simp only [hpk] at h; exact ih _ _ _ h
          | none =>
            simp only [hpk] at h
            exact PkExt.trans (PkExt.install A s acc k hA hpk) (ih _ _ _ h)

/-- a key that is on record after `SetPubKeyDecorator` but was not before is the key attached for that signer -/
theorem setPubKeys_new : ∀ (pks : List (Option Key)) (ss : List Addr) (A B : Accounts),
    setPubKeys A pks ss = .ok B → ∀ a acc acc' k, A a = some acc → acc.pk = none → B a = some acc' → acc'.pk = some k →
    ∃ i : Nat, pks[i]? = some (some k) ∧ ss[i]? = some a := by
  intro pks
  induction pks with
  | nil =>
    intro ss A B h a acc acc' k ha hpk hb hk
    simp [setPubKeys] at h; subst h
    rw [ha] at hb; cases hb; simp [hpk] at hk
  | cons pk pks ih =>
    intro ss A B h a acc acc' k ha hpk hb hk
    cases pk with
    | none =>
      simp only [setPubKeys] at h
      obtain ⟨i, h1, h2⟩ := ih _ _ _ h a acc acc' k ha hpk hb hk
      refine ⟨i + 1, by simpa using h1, ?_⟩
      cases ss with
      | nil => simp at h2
      | cons s ss => simpa using h2
    | some k0 =>
      cases ss with
      | nil => simp [setPubKeys] at h
      | cons s ss =>
        simp only [setPubKeys] at h
        cases hA : A s with
        | none => simp [hA] at h
        | some accs =>
          simp only [hA] at h
          cases hpks : accs.pk with
          | some k1 =>
            simp only [hpks] at h
            obtain ⟨i, h1, h2⟩ := ih _ _ _ h a acc acc' k ha hpk hb hk
            exact ⟨i + 1, by simpa using h1, by simpa using h2⟩
          | none =>
            simp only [hpks] at h
            by_cases has : a = s
            · subst has
              -- the key installed now stays (later iterations never replace a key)
              have hext := setPubKeys_ext _ _ _ _ h
              obtain ⟨acc2, hb2, _, _, hk2⟩ := (hext a).2 _ (set_same A a { accs with pk := some k0 })
              rw [hb] at hb2; cases hb2
              have := hk2 k0 rfl
              rw [hk] at this; cases this
              exact ⟨0, by simp, by simp⟩
            · have ha' : (A.set s { accs with pk := some k0 }) a = some acc := by rw [set_other _ _ has]; exact ha
              obtain ⟨i, h1, h2⟩ := ih _ _ _ h a acc acc' k ha' hpk hb hk
              exact ⟨i + 1, by simpa using h1, by simpa using h2⟩

/-! ## signers -/

theorem dedupAux_spec : ∀ (l seen : List Addr),
    (dedupAux seen l).Nodup ∧ ∀ x, x ∈ dedupAux seen l → x ∉ seen ∧ x ∈ l := by
  intro l
  induction l with
  | nil => intro seen; simp [dedupAux]
  | cons a rest ih =>
    intro seen
    simp only [dedupAux]
    by_cases h : a ∈ seen
    · simp only [h, if_true]
      obtain ⟨h1, h2⟩ := ih seen
      exact ⟨h1, fun x hx => ⟨(h2 x hx).1, List.mem_cons_of_mem _ (h2 x hx).2⟩⟩
    · simp only [h, if_false]
      obtain ⟨h1, h2⟩ := ih (a :: seen)
      refine ⟨List.nodup_cons.mpr ⟨fun hm => ?_, h1⟩, fun x hx => ?_⟩
      · exact (h2 a hm).1 (List.mem_cons_self ..)
      · rcases List.mem_cons.mp hx with rfl | hx
        · exact ⟨h, List.mem_cons_self ..⟩
        · exact ⟨fun hs => (h2 x hx).1 (List.mem_cons_of_mem _ hs), List.mem_cons_of_mem _ (h2 x hx).2⟩

theorem signers_nodup (tx : Tx) : tx.signers.Nodup := (dedupAux_spec _ _).1

theorem mem_dedupAux : ∀ (l seen : List Addr) (x : Addr), x ∈ l → x ∉ seen → x ∈ dedupAux seen l := by
  intro l
  induction l with
  | nil => intro seen x h; simp at h
  | cons a rest ih =>
    intro seen x hx hs
    simp only [dedupAux]
    by_cases ha : a ∈ seen
    · simp only [ha, if_true]
      rcases List.mem_cons.mp hx with rfl | hx
      · exact absurd ha hs
      · exact ih seen x hx hs
    · simp only [ha, if_false]
      by_cases hxa : x = a
      · subst hxa; exact List.mem_cons_self ..
      · rcases List.mem_cons.mp hx with rfl | hx
        · exact absurd rfl hxa
        · exact List.mem_cons_of_mem _ (ih (a :: seen) x hx (by simp [hxa, hs]))

/-- the fee payer, if one is named, is one of the signers -/
theorem payer_mem_signers (tx : Tx) (p : Addr) (h : tx.core.payer = some p) : p ∈ tx.signers := by
  unfold Tx.signers
  exact mem_dedupAux _ _ _ (by simp [h]) (by simp)

/-! ## IncrementSequenceDecorator -/

theorem incSeqs_spec : ∀ (ss : List Addr) (A B : Accounts), ss.Nodup → incSeqs A ss = .ok B →
    ∀ a, (A a = none → B a = none) ∧
      ∀ acc, A a = some acc → B a = some { acc with seq := if a ∈ ss then acc.seq + 1 else acc.seq } := by
  intro ss
  induction ss with
  | nil => intro A B _ h a; simp [incSeqs] at h; subst h; simp
  | cons s ss ih =>
    intro A B hnd h a
    simp only [incSeqs] at h
    cases hA : A s with
    | none => simp [hA] at h
    | some accs =>
      simp only [hA] at h
      obtain ⟨hs, hnd'⟩ := List.nodup_cons.mp hnd
      have := ih _ _ hnd' h a
      by_cases has : a = s
      · subst has
        refine ⟨fun hn => by simp [hn] at hA, fun acc hacc => ?_⟩
        rw [hA] at hacc; cases hacc
        have h2 := this.2 _ (set_same A a { accs with seq := accs.seq + 1 })
        simpa [hs] using h2
      · rw [set_other _ _ has] at this
        refine ⟨this.1, fun acc hacc => ?_⟩
        have h2 := this.2 acc hacc
        simpa [has] using h2

/-! ## specification vocabulary -/

/-- How signer `s` (account `acc` after SetPubKey, signer info `info`, signature `σ`) was authenticated. -/
inductive AuthBy (env : Env) (tx : Tx) (s : Addr) (acc : Account) (info : SignerInfo) (σ : Sig) : Prop where
  /-- standard path: the key on record hashes to the account address and signed exactly the sign bytes of this
  transaction (SignDoc / StdSignDoc) for this chain, account number and sequence -/
  | std (pk : Key) (p : Payload) :
      acc.pk = some pk → cosmosAddr pk = s → σ.key = pk → σ.enc = .cosmos64 → σ.payload = p →
      signBytes env info.mode tx acc.num acc.seq = .ok p → AuthBy env tx s acc info σ
  /-- Ethereum fallback, EIP-712: the key whose Ethereum address is the account signed (message as
  `GenEIP712SignBytesFromMsg` sees it, sequence) -/
  | eip712 (pk : Key) (m : Msg) :
      acc.pk = some pk → cosmosAddr pk ≠ s → info.mode = .direct → tx.core.msgs = [m] → m.isEthTx = false →
      tx.signers = [s] → σ.enc = .eth65 → ethAddr σ.key = s → σ.payload = .eip712 (eipView env m) acc.seq env.ethChainId →
      AuthBy env tx s acc info σ
  /-- Ethereum fallback, raw Ethereum transaction: the signer IS `msg.Sender`, the key whose Ethereum address is
  `msg.Sender` signed the embedded transaction, whose nonce is the account sequence and whose chain id is
  `EthChainID` -/
  | rawEth (pk k : Key) (etx : EthTx) (ty : Nat) :
      acc.pk = some pk → cosmosAddr pk ≠ s → info.mode = .direct → tx.core.msgs = [.ethTx s etx ty] →
      etx.signedBy = some k → ethAddr k = s → etx.nonce = acc.seq → etx.chainId = env.ethChainId →
      AuthBy env tx s acc info σ

theorem signers_single_eth (tx : Tx) (s : Addr) (etx : EthTx) (ty : Nat) (h : tx.core.msgs = [.ethTx s etx ty])
    (hp : tx.core.payer = none ∨ tx.core.payer = some s) : tx.signers = [s] := by
  rcases hp with hp | hp <;> simp [Tx.signers, h, hp, Msg.signers, dedupAux]

theorem signers_head_eth (tx : Tx) (s : Addr) (etx : EthTx) (ty : Nat) (h : tx.core.msgs = [.ethTx s etx ty]) :
    tx.signers[0]? = some s := by
  cases hp : tx.core.payer with
  | none => simp [Tx.signers, h, hp, Msg.signers, dedupAux]
  | some p =>
    by_cases hps : p = s
    · simp [Tx.signers, h, hp, hps, Msg.signers, dedupAux]
    · simp [Tx.signers, h, hp, hps, Msg.signers, dedupAux]

theorem recoverAndCompare_ok (σ : Sig) (p : Payload) (ss : List Addr) (h : recoverAndCompare σ p ss = .ok ()) :
    σ.enc = .eth65 ∧ p.isDigest32 = true ∧ σ.payload = p ∧ ss = [ethAddr σ.key] := by
  unfold recoverAndCompare at h
  cases hr : recover σ p with
  | none => simp [hr] at h
  | some k =>
    simp only [hr] at h
    unfold recover at hr
    split at hr
    · rename_i hc
      cases hr
      match ss, h with
      | [a], h =>
        by_cases he : ethAddr σ.key = a
        · subst he; exact ⟨hc.1, hc.2.1, hc.2.2, rfl⟩
        · simp [he] at h
    · cases hr

theorem verifyEth_ok (env : Env) (s : Addr) (acc : Account) (info : SignerInfo) (σ : Sig) (tx : Tx)
    (h : verifyEth env s acc info σ tx = .ok ()) :
    info.mode = .direct ∧
    ((∃ m, tx.core.msgs = [m] ∧ m.isEthTx = false ∧ σ.enc = .eth65 ∧ σ.payload = .eip712 (eipView env m) acc.seq env.ethChainId ∧
        tx.signers = [ethAddr σ.key]) ∨
     (∃ etx ty k, tx.core.msgs = [.ethTx s etx ty] ∧ etx.signedBy = some k ∧ ethAddr k = s ∧
        etx.nonce = acc.seq ∧ etx.chainId = env.ethChainId)) := by
  unfold verifyEth at h
  cases hsb : signBytes env info.mode tx acc.num acc.seq with
  | error e => simp [hsb] at h
  | ok p =>
    simp only [hsb] at h
    cases hm : info.mode with
    | direct =>
      simp only [hm] at h
      refine ⟨rfl, ?_⟩
      match hmsgs : tx.core.msgs, h with
      | [Msg.ethTx sender etx ty], h =>
        simp only at h
        by_cases h1 : acc.seq = etx.nonce
        · by_cases h2 : env.ethChainId = etx.chainId
          · simp only [h1, h2, ne_eq, not_true_eq_false, if_false] at h
            cases hk : etx.signedBy with
            | none => simp [hk] at h
            | some k =>
              simp only [hk] at h
              by_cases h0 : s = sender
              · subst h0
                by_cases h3 : ethAddr k = s
                · exact Or.inr ⟨etx, ty, k, rfl, hk, h3, h1.symm, h2.symm⟩
                · simp [h3] at h
              · simp [h0] at h
          · simp [h1, h2] at h
        · simp [h1] at h
      | [Msg.plain t c ss], h =>
        simp only at h
        obtain ⟨he, _, hp, hs⟩ := recoverAndCompare_ok _ _ _ h
        exact Or.inl ⟨_, rfl, rfl, he, hp, hs⟩
    | amino =>
      simp only [hm] at h
      obtain ⟨_, hd, _, _⟩ := recoverAndCompare_ok _ _ _ h
      rw [hm] at hsb
      unfold signBytes at hsb
      simp only at hsb
      split at hsb
      · cases hsb
      · cases hsb; simp [Payload.isDigest32] at hd
    | other n =>
      rw [hm] at hsb
      simp [signBytes] at hsb

theorem verifyStd_ok (env : Env) (pk : Key) (acc : Account) (info : SignerInfo) (σ : Sig) (tx : Tx)
    (h : verifyStd env pk acc info σ tx = .ok ()) :
    ∃ p, signBytes env info.mode tx acc.num acc.seq = .ok p ∧ σ.enc = .cosmos64 ∧ σ.key = pk ∧ σ.payload = p := by
  unfold verifyStd at h
  cases hsb : signBytes env info.mode tx acc.num acc.seq with
  | error e => simp [hsb] at h
  | ok p =>
    simp only [hsb] at h
    by_cases hc : σ.enc = .cosmos64 ∧ σ.key = pk ∧ σ.payload = p
    · exact ⟨p, rfl, hc.1, hc.2.1, hc.2.2⟩
    · simp [hc] at h

/-- soundness of the signer loop: every (signer info, signature, signer) triple at the same position was
authenticated in one of the three ways, against the sequence on record. `pre` are the signers already passed. -/
theorem verifySigs_sound (env : Env) (A : Accounts) (tx : Tx) :
    ∀ (sv : List (SignerInfo × Sig)) (ss pre : List Addr), tx.signers = pre ++ ss →
    verifySigs env A tx sv ss = .ok () →
    ∀ (i : Nat) info σ s, sv[i]? = some (info, σ) → ss[i]? = some s →
      ∃ acc, A s = some acc ∧ info.seq = acc.seq ∧ AuthBy env tx s acc info σ := by
  intro sv
  induction sv with
  | nil => intro ss pre _ _ i info σ s h; simp at h
  | cons x rest ih =>
    intro ss pre hpre h i info σ s hsv hss
    obtain ⟨info0, σ0⟩ := x
    cases ss with
    | nil => simp at hss
    | cons s0 ss =>
      simp only [verifySigs] at h
      cases hA : A s0 with
      | none => simp [hA] at h
      | some acc =>
        simp only [hA] at h
        cases hpk : acc.pk with
        | none => simp [hpk] at h
        | some pk =>
          simp only [hpk] at h
          by_cases hseq : info0.seq = acc.seq
          · simp only [hseq, ne_eq, not_true_eq_false, if_false] at h
            by_cases haddr : cosmosAddr pk = s0
            · simp only [haddr, not_true_eq_false, if_false] at h
              cases hv : verifyStd env pk acc info0 σ0 tx with
              | error e => simp [hv] at h
              | ok u =>
                simp only [hv] at h
                have key : ∃ acc, A s0 = some acc ∧ info0.seq = acc.seq ∧ AuthBy env tx s0 acc info0 σ0 := by
                  obtain ⟨p, hp, he, hk, hpl⟩ := verifyStd_ok _ _ _ _ _ _ hv
                  exact ⟨acc, hA, hseq, AuthBy.std pk p hpk haddr hk he hpl hp⟩
                cases i with
                | zero =>
                  simp at hsv hss
                  obtain ⟨rfl, rfl⟩ := hsv
                  subst hss
                  exact key
                | succ j =>
                  simp at hsv hss
                  exact ih ss (pre ++ [s0]) (by simpa using hpre) h j info σ s hsv hss
            · simp only [haddr, not_false_eq_true, if_true] at h
              cases hv : verifyEth env s0 acc info0 σ0 tx with
              | error e =>
                simp only [hv] at h
                cases e <;> simp at h
              | ok u =>
                simp only [hv] at h
                obtain ⟨hmode, hshape⟩ := verifyEth_ok _ _ _ _ _ _ hv
                have key : ∃ acc, A s0 = some acc ∧ info0.seq = acc.seq ∧ AuthBy env tx s0 acc info0 σ0 := by
                  refine ⟨acc, hA, hseq, ?_⟩
                  rcases hshape with ⟨m, hm, hne, he, hp, hs⟩ | ⟨etx, ty, k, hm, hk, hks, hn, hc⟩
                  · -- exactly one signer, and the current signer is among the signers
                    have hmem : s0 ∈ tx.signers := by rw [hpre]; simp
                    rw [hs] at hmem
                    have hka : ethAddr σ0.key = s0 := by
                      have := List.mem_singleton.mp hmem
                      exact this.symm
                    rw [hka] at hs
                    exact AuthBy.eip712 pk m hpk haddr hmode hm hne hs he hka hp
                  · exact AuthBy.rawEth pk k etx ty hpk haddr hmode hm hk hks hn hc
                cases i with
                | zero =>
                  simp at hsv hss
                  obtain ⟨rfl, rfl⟩ := hsv
                  subst hss
                  exact key
                | succ j =>
                  simp at hsv hss
                  exact ih ss (pre ++ [s0]) (by simpa using hpre) h j info σ s hsv hss
          · simp [hseq] at h

/-- the first signer's sequence field must equal the sequence on record, and that account must exist with a key -/
theorem verifySigs_first (env : Env) (A : Accounts) (tx : Tx) (info : SignerInfo) (σ : Sig)
    (rest : List (SignerInfo × Sig)) (s : Addr) (ss : List Addr) (acc : Account)
    (hA : A s = some acc) (hne : info.seq ≠ acc.seq) :
    ∃ e, verifySigs env A tx ((info, σ) :: rest) (s :: ss) = .error e := by
  simp only [verifySigs, hA]
  cases acc.pk with
  | none => exact ⟨_, rfl⟩
  | some pk => simp [hne]

end Sekai.Auth
