import SekaiProofs.Lemmas.F32Rne
/-! midpoint rounding (`rne_ge_succ`, `rne_le_pred`), `ilog2_unique`, exactness of `float32(n)` for n ≤ 2^24 -/

namespace Sekai.F32

theorem rne_nonpos (x : ℚ) (hx : x ≤ 0) : rne x = 0 := by unfold rne; simp [hx]

theorem rne_le_repr' (x : ℚ) (m : ℕ) (e : ℤ) (hm : m < 2 ^ 24)
    (h : x ≤ (m : ℚ) * pow2 e) : rne x ≤ (m : ℚ) * pow2 e := by
  by_cases hx : 0 < x
  · exact rne_le_repr x hx m e hm h
  · rw [rne_nonpos x (not_lt.mp hx)]
    have := pow2_pos e; positivity

theorem pow2_strictMono {a b : ℤ} (h : a < b) : pow2 a < pow2 b := by
  rw [pow2_eq, pow2_eq]; exact zpow_lt_zpow_right₀ (by norm_num) h

theorem ilog2_unique (x : ℚ) (hx : 0 < x) (n : ℤ) (h1 : pow2 n ≤ x) (h2 : x < pow2 (n + 1)) : ilog2 x = n := by
  obtain ⟨s1, s2⟩ := ilog2_spec x hx
  by_contra hne
  rcases lt_or_gt_of_ne hne with hlt | hgt
  · -- ilog2 x < n → ilog2 x + 1 ≤ n → x < pow2 (il+1) ≤ pow2 n ≤ x
    have : pow2 (ilog2 x + 1) ≤ pow2 n := by
      rcases eq_or_lt_of_le (show ilog2 x + 1 ≤ n by omega) with h | h
      · rw [h]
      · exact le_of_lt (pow2_strictMono h)
    linarith
  · have : pow2 (n + 1) ≤ pow2 (ilog2 x) := by
      rcases eq_or_lt_of_le (show n + 1 ≤ ilog2 x by omega) with h | h
      · rw [h]
      · exact le_of_lt (pow2_strictMono h)
    linarith

/-- above the midpoint between m·2^e and (m+1)·2^e (same binade) rne goes up -/
theorem rne_ge_succ (x : ℚ) (m : ℕ) (e : ℤ) (hm1 : 2 ^ 23 ≤ m) (_hm2 : m < 2 ^ 24)
    (hlo : ((m : ℚ) + 1 / 2) * pow2 e < x) (hhi : x < (2:ℚ) ^ 24 * pow2 e) :
    ((m : ℚ) + 1) * pow2 e ≤ rne x := by
  have hpe := pow2_pos e
  have hm1' : (2:ℚ) ^ 23 ≤ m := by exact_mod_cast hm1
  have hx : 0 < x := by
    have : (0:ℚ) < ((m : ℚ) + 1 / 2) * pow2 e := by positivity
    linarith
  have hil : ilog2 x = 23 + e := by
    apply ilog2_unique x hx
    · rw [pow2_add]; have : pow2 23 = (2:ℚ)^23 := by rw [pow2_eq]; norm_num
      rw [this]; nlinarith
    · have : 23 + e + 1 = 24 + e := by ring
      rw [this, pow2_add]; have : pow2 24 = (2:ℚ)^24 := by rw [pow2_eq]; norm_num
      rw [this]; exact hhi
  rw [rne_pos_eq x hx, hil]
  have hk : (23:ℤ) - (23 + e) = -e := by ring
  rw [hk, neg_neg]
  have hy0 : 0 ≤ x * pow2 (-e) := by have := pow2_pos (-e); positivity
  have hgt : ((m:ℕ) : ℚ) + 1/2 < x * pow2 (-e) := by
    have h1 := pow2_neg_mul e
    have hne := pow2_pos (-e)
    calc ((m:ℕ) : ℚ) + 1/2 = (((m : ℚ) + 1 / 2) * pow2 e) * pow2 (-e) := by rw [mul_assoc, h1]; ring
      _ < x * pow2 (-e) := by nlinarith
  have := rhe_ge_succ_of_gt_half _ hy0 m hgt
  have h3 : ((m : ℚ) + 1) ≤ (rhe (x * pow2 (-e)) : ℚ) := by exact_mod_cast this
  nlinarith

/-- below the midpoint between m·2^e and (m+1)·2^e (same binade) rne does not go above m·2^e -/
theorem rne_le_pred (x : ℚ) (m : ℕ) (e : ℤ) (hm1 : 2 ^ 23 ≤ m) (hm2 : m < 2 ^ 24)
    (hhi : x < ((m : ℚ) + 1 / 2) * pow2 e) : rne x ≤ (m : ℚ) * pow2 e := by
  have hpe := pow2_pos e
  by_cases hle : x ≤ (m : ℚ) * pow2 e
  · exact rne_le_repr' x m e hm2 hle
  · have hlo : (m : ℚ) * pow2 e < x := not_le.mp hle
    have hm1' : (2:ℚ) ^ 23 ≤ m := by exact_mod_cast hm1
    have hm2' : (m : ℚ) + 1 ≤ 2 ^ 24 := by exact_mod_cast hm2
    have hx : 0 < x := by
      have : (0:ℚ) ≤ (m : ℚ) * pow2 e := by positivity
      linarith
    have hil : ilog2 x = 23 + e := by
      apply ilog2_unique x hx
      · rw [pow2_add]; have : pow2 23 = (2:ℚ)^23 := by rw [pow2_eq]; norm_num
        rw [this]; nlinarith
      · have : 23 + e + 1 = 24 + e := by ring
        rw [this, pow2_add]; have : pow2 24 = (2:ℚ)^24 := by rw [pow2_eq]; norm_num
        rw [this]; nlinarith
    rw [rne_pos_eq x hx, hil]
    have hk : (23:ℤ) - (23 + e) = -e := by ring
    rw [hk, neg_neg]
    have hne := pow2_pos (-e)
    have hy0 : 0 ≤ x * pow2 (-e) := by positivity
    have hlt : x * pow2 (-e) < ((m:ℕ) : ℚ) + 1/2 := by
      have h1 := pow2_neg_mul e
      calc x * pow2 (-e) < (((m : ℚ) + 1 / 2) * pow2 e) * pow2 (-e) := by nlinarith
        _ = ((m:ℕ) : ℚ) + 1/2 := by rw [mul_assoc, h1]; ring
    have := rhe_le_of_lt_half _ hy0 m hlt
    have h3 : (rhe (x * pow2 (-e)) : ℚ) ≤ (m : ℚ) := by exact_mod_cast this
    nlinarith

theorem ofNat_exact (n : ℕ) (h : n ≤ 2 ^ 24) : ofNat n = (n : ℚ) := by
  unfold ofNat
  rcases Nat.lt_or_ge n (2 ^ 24) with hlt | hge
  · have := rne_exact n 0 hlt
    simpa [pow2_eq] using this
  · have hn : n = 2 ^ 24 := by omega
    have := rne_exact (2 ^ 23) 1 (by norm_num)
    subst hn
    have e : ((2 ^ 23 : ℕ) : ℚ) * pow2 1 = ((2 ^ 24 : ℕ) : ℚ) := by rw [pow2_eq]; norm_num
    rw [e] at this; exact this

theorem rne_one : rne (1 : ℚ) = 1 := by
  have := rne_exact 1 0 (by norm_num); simpa [pow2_eq] using this

theorem rne_hundred : rne (100 : ℚ) = 100 := by
  have := rne_exact 100 0 (by norm_num); simpa [pow2_eq] using this
end Sekai.F32
