import SekaiProofs.Lemmas.MultiStakeSpec
/-! The state invariant of the multistaking model and its preservation by every op. Core Lean only. -/
namespace Sekai.MultiStake
open Sekai AMap

/-- share supply = recorded share total (per pool and share denom), pool ids well-formed and distinct, no supply
of share denoms of pools that do not exist yet, and the module account covers pool stake + undelegations -/
structure Inv (s : St) : Prop where
  share : ∀ p ∈ s.pools, ∀ d : Denom, d.pool = p.id → get s.bank.supply d = get p.shares d
  ids : ∀ p ∈ s.pools, 1 ≤ p.id ∧ p.id ≤ s.lastPoolId
  distinct : s.pools.Pairwise Distinct
  fresh : ∀ d : Denom, s.lastPoolId < d.pool → get s.bank.supply d = 0
  solv : ∀ d : Denom, stakeSum s.pools d + undelSum s.undels d ≤ s.bank.balance .ms d

theorem Inv.congr {s s' : St} (h : Inv s) (hb : s'.bank = s.bank) (hp : s'.pools = s.pools)
    (hl : s'.lastPoolId = s.lastPoolId) (hu : s'.undels = s.undels) : Inv s' := by
  refine ⟨?_, ?_, ?_, ?_, ?_⟩
  · rw [hb, hp]; exact h.share
  · rw [hp, hl]; exact h.ids
  · rw [hp]; exact h.distinct
  · rw [hb, hl]; exact h.fresh
  · rw [hb, hp, hu]; exact h.solv

/-- a bank change that leaves the supply of every share denom alone and does not lower the module balance -/
theorem Inv.bank_mono {s : St} {b' : Bank} (h : Inv s)
    (hs : ∀ d : Denom, d.pool ≠ 0 → get b'.supply d = get s.bank.supply d)
    (hm : ∀ d : Denom, s.bank.balance .ms d ≤ b'.balance .ms d) : Inv { s with bank := b' } := by
  refine ⟨?_, h.ids, h.distinct, ?_, ?_⟩
  · intro p hp d hd
    have := (h.ids p hp).1
    show get b'.supply d = _
    rw [hs d (by omega)]; exact h.share p hp d hd
  · intro d hd
    show get b'.supply d = 0
    rw [hs d (by omega)]; exact h.fresh d hd
  · intro d
    have := h.solv d
    have := hm d
    show stakeSum s.pools d + undelSum s.undels d ≤ b'.balance .ms d
    omega

theorem Inv.send {s : St} {b' : Bank} {src dst : Acct} {c : Coins} (h : Inv s)
    (hb : s.bank.send src dst c = some b') (hsrc : src ≠ .ms) : Inv { s with bank := b' } := by
  apply h.bank_mono
  · intro d _; rw [Bank.send_supply hb]
  · intro d
    have := Bank.send_bal hb .ms d
    simp only [hsrc, if_false] at this
    omega

theorem Inv.mintNative {s : St} {a : Acct} {n : Nat} (h : Inv s) : Inv { s with bank := s.bank.mint a [(ukex, n)] } := by
  apply h.bank_mono
  · intro d hd
    rw [Bank.mint_supply]
    have : ¬ (ukex = d) := by intro e; apply hd; rw [← e]; rfl
    simp [get_cons, this]
  · intro d
    rw [Bank.mint_bal]; omega

/-! ## the ops -/
theorem inv_upsertPool {s s' : St} {sender val : Nat} {en : Bool} {c : Dec.D} (h : Inv s)
    (hu : upsertPool s sender val en c = some s') : Inv s' := by
  rcases upsertPool_spec hu with ⟨p, hp, rfl⟩ | ⟨hp, rfl⟩
  · -- enabled flag of an existing pool
    have hpm := findPool_mem hp
    refine ⟨?_, ?_, ?_, h.fresh, ?_⟩
    · intro q hq d hd
      rcases mem_setPool hp h.distinct hq hpm.2 with e | ⟨hq', _⟩
      · subst e; exact h.share p hpm.1 d hd
      · exact h.share q hq' d hd
    · intro q hq
      rcases mem_setPool hp h.distinct hq hpm.2 with e | ⟨hq', _⟩
      · subst e; exact h.ids p hpm.1
      · exact h.ids q hq'
    · exact pairwise_setPool hp rfl rfl h.distinct
    · intro d
      have := stakeSum_setPool (p' := { p with enabled := en }) hp hpm.2 d
      have := h.solv d
      show stakeSum (setPool s.pools _) d + undelSum s.undels d ≤ s.bank.balance .ms d
      simp only at *
      omega
  · -- a new pool with the next id
    unfold findPool at hp
    have hnew := setPool_new (ps := s.pools) (p' := { id := s.lastPoolId + 1, val := val, enabled := en, commission := c }) hp
    refine ⟨?_, ?_, ?_, ?_, ?_⟩
    · intro q hq d hd
      simp only [hnew, List.mem_append, List.mem_singleton] at hq
      rcases hq with hq | rfl
      · exact h.share q hq d hd
      · show get s.bank.supply d = get ([] : Coins) d
        rw [h.fresh d (by simp only at hd; omega)]; rfl
    · intro q hq
      simp only [hnew, List.mem_append, List.mem_singleton] at hq
      rcases hq with hq | rfl
      · have := h.ids q hq
        show 1 ≤ q.id ∧ q.id ≤ s.lastPoolId + 1
        omega
      · show 1 ≤ s.lastPoolId + 1 ∧ s.lastPoolId + 1 ≤ s.lastPoolId + 1
        omega
    · show (setPool s.pools _).Pairwise Distinct
      rw [hnew, List.pairwise_append]
      refine ⟨h.distinct, by simp, ?_⟩
      intro q hq r hr
      simp only [List.mem_singleton] at hr
      subst hr
      have hv : ¬ q.val = val := by
        have := List.find?_eq_none.mp hp q hq
        simpa using this
      have := h.ids q hq
      exact ⟨hv, by show q.id ≠ s.lastPoolId + 1; omega⟩
    · intro d hd
      exact h.fresh d (by simp only at hd; omega)
    · intro d
      show stakeSum (setPool s.pools _) d + undelSum s.undels d ≤ s.bank.balance .ms d
      rw [hnew, stakeSum_append]
      have := h.solv d
      simp only [stakeSum, get_nil]
      omega

theorem inv_delegate {s s' : St} {who val : Nat} {amts : Coins} (h : Inv s)
    (hd : delegate s who val amts = some s') : Inv s' := by
  obtain ⟨p, pc, b1, b3, hp, _, hpc, hb1, hb3, heq⟩ := delegate_spec hd
  have hpm := findPool_mem hp
  have hsup : ∀ d, get b3.supply d = get s.bank.supply d + get pc d := by
    intro d
    rw [Bank.send_supply hb3, Bank.mint_supply, Bank.send_supply hb1]
  have hms : ∀ d, b3.balance .ms d = s.bank.balance .ms d + get amts d := by
    intro d
    have h3 := Bank.send_bal hb3 .ms d
    have h1 := Bank.send_bal hb1 .ms d
    rw [Bank.mint_bal] at h3
    simp at h3 h1
    omega
  rw [heq]
  refine ⟨?_, ?_, ?_, ?_, ?_⟩
  · intro q hq d hdq
    show get b3.supply d = get q.shares d
    rcases mem_setPool hp h.distinct hq hpm.2 with e | ⟨hq', hne⟩
    · subst e
      show get b3.supply d = get (addAll p.shares pc) d
      rw [hsup, get_addAll, h.share p hpm.1 d hdq]
    · rw [hsup, get_poolCoins_other hpc d (by rw [hdq]; exact fun e => hne.2 e.symm)]
      exact h.share q hq' d hdq
  · intro q hq
    rcases mem_setPool hp h.distinct hq hpm.2 with e | ⟨hq', _⟩
    · subst e; exact h.ids p hpm.1
    · exact h.ids q hq'
  · exact pairwise_setPool hp rfl rfl h.distinct
  · intro d hdl
    show get b3.supply d = 0
    have := (h.ids p hpm.1).2
    rw [hsup, h.fresh d hdl, get_poolCoins_other hpc d (by simp only at hdl; omega)]
  · intro d
    show stakeSum (setPool s.pools _) d + undelSum s.undels d ≤ b3.balance .ms d
    have := stakeSum_setPool (p' := { p with stake := addAll p.stake amts, shares := addAll p.shares pc }) hp hpm.2 d
    have := h.solv d
    rw [hms]
    simp only [get_addAll] at *
    omega

theorem inv_undelegate {s s' : St} {who val : Nat} {amts : Coins} (h : Inv s)
    (hu : undelegate s who val amts = some s') : Inv s' := by
  obtain ⟨p, pc, b1, b2, stake', shares', hp, hpc, hb1, hb2, hst, hsh, rfl⟩ := undelegate_spec hu
  have hpm := findPool_mem hp
  have hsup : ∀ d, get b2.supply d + get pc d = get s.bank.supply d := by
    intro d
    rw [← Bank.send_supply hb1]; exact Bank.burn_supply hb2 d
  have hms : ∀ d, b2.balance .ms d = s.bank.balance .ms d := by
    intro d
    have h2 := Bank.burn_bal hb2 .ms d
    have h1 := Bank.send_bal hb1 .ms d
    simp at h2 h1
    omega
  refine ⟨?_, ?_, ?_, ?_, ?_⟩
  · intro q hq d hdq
    show get b2.supply d = get q.shares d
    rcases mem_setPool hp h.distinct hq hpm.2 with e | ⟨hq', hne⟩
    · subst e
      show get b2.supply d = get shares' d
      have := hsup d
      have := get_subAll hsh d
      have := h.share p hpm.1 d hdq
      omega
    · have := hsup d
      rw [get_poolCoins_other hpc d (by rw [hdq]; exact fun e => hne.2 e.symm)] at this
      rw [← h.share q hq' d hdq]; omega
  · intro q hq
    rcases mem_setPool hp h.distinct hq hpm.2 with e | ⟨hq', _⟩
    · subst e; exact h.ids p hpm.1
    · exact h.ids q hq'
  · exact pairwise_setPool hp rfl rfl h.distinct
  · intro d hdl
    show get b2.supply d = 0
    have := hsup d
    have := h.fresh d hdl
    omega
  · intro d
    show stakeSum (setPool s.pools _) d + undelSum (s.undels ++ _) d ≤ b2.balance .ms d
    have := stakeSum_setPool (p' := { p with stake := stake', shares := shares' }) hp hpm.2 d
    have := h.solv d
    have := get_subAll hst d
    rw [hms, undelSum_append]
    simp only [undelSum] at *
    omega

theorem inv_slash {s s' : St} {val : Nat} {sl : Dec.D} (h : Inv s) (hs : slash s val sl = some s') : Inv s' := by
  rcases slash_spec hs with ⟨_, rfl⟩ | ⟨p, stake', slashed, b1, b2, hp, _, hsub, _, hb1, hb2, rfl⟩
  · exact h
  have hpm := findPool_mem hp
  have hsup : ∀ d : Denom, d.pool ≠ 0 → get b2.supply d = get s.bank.supply d := by
    intro d hd
    rw [Bank.send_supply hb2]
    have := Bank.burn_supply hb1 d
    have hne : ¬ (ukex = d) := by intro e; apply hd; rw [← e]; rfl
    simp [get_cons, hne] at this
    exact this
  have hms : ∀ d, b2.balance .ms d + get slashed d = s.bank.balance .ms d := by
    intro d
    have h2 := Bank.send_bal hb2 .ms d
    have h1 := Bank.burn_bal hb1 .ms d
    simp at h2 h1
    by_cases hd : d = ukex
    · subst hd
      rw [get_filter_eq'] at h2
      simp [get_cons] at h1
      omega
    · rw [get_filter_ne' _ _ _ hd, get_nz] at h2
      have hne : ¬ (ukex = d) := fun e => hd e.symm
      simp [get_cons, hne] at h1
      omega
  refine ⟨?_, ?_, ?_, ?_, ?_⟩
  · intro q hq d hdq
    show get b2.supply d = get q.shares d
    have hq1 : 1 ≤ q.id := by
      rcases mem_setPool hp h.distinct hq hpm.2 with e | ⟨hq', _⟩
      · subst e; exact (h.ids p hpm.1).1
      · exact (h.ids q hq').1
    rw [hsup d (by omega)]
    rcases mem_setPool hp h.distinct hq hpm.2 with e | ⟨hq', _⟩
    · subst e; exact h.share p hpm.1 d hdq
    · exact h.share q hq' d hdq
  · intro q hq
    rcases mem_setPool hp h.distinct hq hpm.2 with e | ⟨hq', _⟩
    · subst e; exact h.ids p hpm.1
    · exact h.ids q hq'
  · exact pairwise_setPool hp rfl rfl h.distinct
  · intro d hdl
    show get b2.supply d = 0
    rw [hsup d (by simp only at hdl; omega)]; exact h.fresh d hdl
  · intro d
    show stakeSum (setPool s.pools _) d + undelSum s.undels d ≤ b2.balance .ms d
    have := stakeSum_setPool (p' := { p with slashed := sl, enabled := false, stake := stake' }) hp hpm.2 d
    have := h.solv d
    have := get_subAll hsub d
    have := hms d
    simp only at *
    omega

theorem inv_claimUndel {s s' : St} {who id : Nat} (h : Inv s) (hc : claimUndel s who id = some s') : Inv s' := by
  obtain ⟨u, b, hu, _, _, hb, rfl⟩ := claimUndel_spec hc
  refine ⟨?_, h.ids, h.distinct, ?_, ?_⟩
  · intro p hp d hd
    show get b.supply d = _
    rw [Bank.send_supply hb]; exact h.share p hp d hd
  · intro d hd
    show get b.supply d = 0
    rw [Bank.send_supply hb]; exact h.fresh d hd
  · intro d
    show stakeSum s.pools d + undelSum (s.undels.filter _) d ≤ b.balance .ms d
    have := undelSum_filter hu d
    have := h.solv d
    have hb' := Bank.send_bal hb .ms d
    simp at hb'
    omega

theorem claimMaturedAux_spec {who now : Nat} {us keep : List Undel} {b b' : Bank}
    (h : claimMaturedAux who now us b = some (b', keep)) :
    b'.supply = b.supply ∧ ∀ d, b.balance .ms d + undelSum keep d = b'.balance .ms d + undelSum us d := by
  induction us generalizing b keep with
  | nil => simp [claimMaturedAux] at h; obtain ⟨rfl, rfl⟩ := h; exact ⟨rfl, fun _ => rfl⟩
  | cons u r ih =>
    unfold claimMaturedAux at h
    split at h
    · split at h
      · cases h
      · rename_i b1 keep1 h1
        cases h
        obtain ⟨hs, hm⟩ := ih h1
        refine ⟨hs, fun d => ?_⟩
        have := hm d
        simp only [undelSum]; omega
    · split at h
      · cases h
      · rename_i b1 hb1
        obtain ⟨hs, hm⟩ := ih h
        refine ⟨by rw [hs, Bank.send_supply hb1], fun d => ?_⟩
        have := hm d
        have hb' := Bank.send_bal hb1 .ms d
        simp at hb'
        simp only [undelSum]; omega

theorem inv_claimMatured {s s' : St} {who : Nat} (h : Inv s) (hc : claimMatured s who = some s') : Inv s' := by
  unfold claimMatured at hc
  split at hc
  · cases hc
  · rename_i b keep haux
    cases hc
    obtain ⟨hs, hm⟩ := claimMaturedAux_spec haux
    refine ⟨?_, h.ids, h.distinct, ?_, ?_⟩
    · intro p hp d hd
      show get b.supply d = _
      rw [hs]; exact h.share p hp d hd
    · intro d hd
      show get b.supply d = 0
      rw [hs]; exact h.fresh d hd
    · intro d
      show stakeSum s.pools d + undelSum keep d ≤ b.balance .ms d
      have := hm d
      have := h.solv d
      omega

theorem inv_claimRewards {s s' : St} {who : Nat} (h : Inv s) (hc : claimRewards s who = some s') : Inv s' := by
  unfold claimRewards at hc
  split at hc
  · cases hc
  · rename_i b hb
    cases hc
    exact (h.send hb (by simp)).congr rfl rfl rfl rfl

theorem inv_transfer {s s' : St} {a b : Nat} {c : Coins} (h : Inv s) (ht : transfer s a b c = some s') : Inv s' := by
  unfold transfer at ht
  split at ht
  · cases ht
  · split at ht
    · cases ht
    · rename_i b' hb
      cases ht
      exact h.send hb (by simp)

theorem inv_payFee {s s' : St} {a : Nat} {c : Coins} (h : Inv s) (ht : payFee s a c = some s') : Inv s' := by
  unfold payFee at ht
  split at ht
  · cases ht
  · split at ht
    · cases ht
    · rename_i b' hb
      cases ht
      exact h.send hb (by simp)

/-! ## predicates closed under the building blocks of the reward path (so that the autocompound loop, the pool
split and the distributor are walked through once, for every such predicate) -/
structure Closed (P : St → Prop) : Prop where
  /-- only delegator sets, recorded rewards, compound info, treasury and the undelegation counter may differ -/
  congr : ∀ {s s' : St}, P s → s'.bank = s.bank → s'.pools = s.pools → s'.lastPoolId = s.lastPoolId →
    s'.undels = s.undels → s'.votes = s.votes → s'.snapPeriod = s.snapPeriod → s'.height = s.height → P s'
  bank : ∀ {s : St} {b' : Bank}, P s → (∀ d : Denom, d.pool ≠ 0 → get b'.supply d = get s.bank.supply d) →
    (∀ d : Denom, s.bank.balance .ms d ≤ b'.balance .ms d) → P { s with bank := b' }
  delegate : ∀ {s s' : St} {a v : Nat} {c : Coins}, P s → delegate s a v c = some s' → P s'

theorem Closed.send {P : St → Prop} (hc : Closed P) {s : St} {b' : Bank} {src dst : Acct} {c : Coins} (h : P s)
    (hb : s.bank.send src dst c = some b') (hsrc : src ≠ .ms) : P { s with bank := b' } := by
  apply hc.bank h
  · intro d _; rw [Bank.send_supply hb]
  · intro d
    have := Bank.send_bal hb .ms d
    simp only [hsrc, if_false] at this
    omega

theorem Closed.mintNative {P : St → Prop} (hc : Closed P) {s : St} {a : Acct} {n : Nat} (h : P s) :
    P { s with bank := s.bank.mint a [(ukex, n)] } := by
  apply hc.bank h
  · intro d hd
    rw [Bank.mint_supply]
    have : ¬ (ukex = d) := by intro e; apply hd; rw [← e]; rfl
    simp [get_cons, this]
  · intro d
    rw [Bank.mint_bal]; omega

theorem Closed.autocompound {P : St → Prop} (hc : Closed P) {val : Nat} {delegs : List Nat} {s s' : St} (h : P s)
    (ha : autocompound val delegs s = some s') : P s' := by
  induction delegs generalizing s with
  | nil => simp [MultiStake.autocompound] at ha; subst ha; exact h
  | cons a rest ih =>
    unfold MultiStake.autocompound at ha
    dsimp only at ha
    split at ha
    · exact ih h ha
    · split at ha
      · cases ha
      · rename_i auto s1 hstep
        have hs1 : P s1 := by
          split at hstep
          · cases hstep; exact hc.congr h rfl rfl rfl rfl rfl rfl rfl
          · split at hstep
            · cases hstep
            · split at hstep
              · split at hstep
                · cases hstep
                · cases hstep; exact hc.congr h rfl rfl rfl rfl rfl rfl rfl
              · cases hstep; exact h
        split at ha
        · exact ih hs1 ha
        · split at ha
          · cases ha
          · rename_i b hb
            split at ha
            · cases ha
            · rename_i s2 hs2
              have h2 : P s2 := hc.delegate (hc.send hs1 hb (by simp)) hs2
              refine ih ?_ ha
              exact hc.congr h2 rfl rfl rfl rfl rfl rfl rfl

theorem Closed.increasePoolRewards {P : St → Prop} (hc : Closed P) {s s' : St} {p : Pool} {rw : Coins} (h : P s)
    (hi : increasePoolRewards s p rw = some s') : P s' := by
  unfold MultiStake.increasePoolRewards at hi
  dsimp only at hi
  split at hi
  · cases hi
  · refine hc.autocompound ?_ hi
    exact hc.congr h rfl rfl rfl rfl rfl rfl rfl

/-! ## distributor -/
theorem Closed.mintInflation {P : St → Prop} (hc : Closed P) {s s0 : St} {infl : Nat} (h : P s)
    (hm : mintInflation s infl = some s0) : P s0 := by
  unfold MultiStake.mintInflation at hm
  split at hm
  · split at hm
    · cases hm
    · rename_i b hb
      cases hm
      have h1 : P { s with bank := s.bank.mint .mint [(ukex, infl)] } := hc.mintNative h
      exact hc.congr (hc.send h1 hb (by simp)) rfl rfl rfl rfl rfl rfl rfl
  · cases hm; exact h

theorem Closed.poolPart {P : St → Prop} (hc : Closed P) {s0 s1 : St} {p : Pool} {pw infl : Nat}
    {valR poolR valR' : Coins} (h : P s0) (hp : poolPart s0 p pw infl valR poolR = some (valR', s1)) : P s1 := by
  unfold MultiStake.poolPart at hp
  dsimp only at hp
  split at hp
  · cases hp
  · split at hp
    · cases hp
    · split at hp
      · cases hp; exact h
      · split at hp
        · cases hp
        · rename_i s1' hi
          cases hp
          exact hc.increasePoolRewards h hi

theorem Closed.payProposer {P : St → Prop} (hc : Closed P) {s0 s3 : St} {prev pw infl : Nat} {fees : Coins}
    (h : P s0) (hp : payProposer s0 prev pw infl fees = some s3) : P s3 := by
  unfold MultiStake.payProposer at hp
  split at hp
  · cases hp; exact h
  · dsimp only at hp
    split at hp
    · cases hp
    · rename_i valR' s1 hr
      have h1 : P s1 := by
        split at hr
        · cases hr; exact h
        · exact hc.poolPart h hr
      split at hp
      · cases hp; exact h1
      · split at hp
        · cases hp
        · rename_i b hb
          cases hp
          exact hc.send h1 hb (by simp)

theorem Closed.allocate {P : St → Prop} (hc : Closed P) {s s' : St} {prev : Nat} (h : P s)
    (ha : allocate s prev = some s') : P s' := by
  unfold MultiStake.allocate at ha
  split at ha
  · cases ha; exact h
  · split at ha
    · cases ha
    · split at ha
      · cases ha
      · split at ha
        · cases ha
        · rename_i s0 hs0
          dsimp only at ha
          split at ha
          · cases ha
          · rename_i s3 hs3
            cases ha
            exact hc.congr (hc.payProposer (hc.mintInflation h hs0) hs3) rfl rfl rfl rfl rfl rfl rfl

theorem Closed.beginBlock {P : St → Prop} (hc : Closed P)
    (hw : ∀ {s s' : St}, P s → s'.bank = s.bank → s'.pools = s.pools → s'.lastPoolId = s.lastPoolId →
      s'.undels = s.undels → P s')
    {s s' : St} {h t proposer : Nat} {commit : List Nat}
    (hi : P s) (hb : beginBlock s h t proposer commit = some s') : P s' := by
  unfold MultiStake.beginBlock at hb
  dsimp only at hb
  split at hb
  · cases hb
  · rename_i s1 hs1
    cases hb
    have h0 : P { s with height := h, now := t } := hw hi rfl rfl rfl rfl
    have h1 : P s1 := by
      split at hs1
      · split at hs1
        · cases hs1
        · exact hc.allocate h0 hs1
      · cases hs1; exact h0
    exact hw h1 rfl rfl rfl rfl

theorem inv_closed : Closed Inv :=
  ⟨fun h hb hp hl hu _ _ _ => h.congr hb hp hl hu, fun h hs hm => h.bank_mono hs hm, fun h hd => inv_delegate h hd⟩

/-! ## every sequence of ops -/
inductive Op
  | upsert (sender val : Nat) (enabled : Bool) (commission : Dec.D)
  | delegate (who val : Nat) (amts : Coins)
  | undelegate (who val : Nat) (amts : Coins)
  | slash (val : Nat) (sl : Dec.D)
  | claimUndel (who id : Nat)
  | claimMatured (who : Nat)
  | claimRewards (who : Nat)
  | transfer (src dst : Nat) (c : Coins)          -- any coins, share tokens included, between user accounts
  | payFee (src : Nat) (c : Coins)
  | setCompound (who : Nat) (all : Bool) (denoms : List Denom)
  | register (who : Nat)                          -- RegisterDelegator
  | poolRewards (val : Nat) (rewards : Coins)     -- IncreasePoolRewards on the stored pool of `val`
  | allocate (prev : Nat)
  | beginBlock (h t proposer : Nat) (commit : List Nat)
  | endBlock
  | env (f : St → St) (hb : ∀ s, (f s).bank = s.bank) (hp : ∀ s, (f s).pools = s.pools)
        (hl : ∀ s, (f s).lastPoolId = s.lastPoolId) (hu : ∀ s, (f s).undels = s.undels)
        -- any change of context / environment (time, height, token registry, validator status, properties,
        -- vote records, snapshots …) that leaves bank, pools and undelegations alone

def onSuccess (s : St) (r : Option St) : St :=
  match r with
  | some s' => s'
  | none => s

/-- one op with write-on-success (an error or a recovered panic leaves the state unchanged) -/
def step (s : St) : Op → St
  | .upsert a v e c => onSuccess s (upsertPool s a v e c)
  | .delegate a v c => onSuccess s (delegate s a v c)
  | .undelegate a v c => onSuccess s (undelegate s a v c)
  | .slash v sl => onSuccess s (slash s v sl)
  | .claimUndel a id => onSuccess s (claimUndel s a id)
  | .claimMatured a => onSuccess s (claimMatured s a)
  | .claimRewards a => onSuccess s (claimRewards s a)
  | .transfer a b c => onSuccess s (transfer s a b c)
  | .payFee a c => onSuccess s (payFee s a c)
  | .setCompound a all ds => setCompoundInfo s a all ds
  | .register a => onSuccess s (registerDelegator s a)
  | .poolRewards v rw =>
    match findPool s v with
    | some p => onSuccess s (increasePoolRewards s p rw)
    | none => s
  | .allocate prev => onSuccess s (allocate s prev)
  | .beginBlock h t p c => onSuccess s (beginBlock s h t p c)
  | .endBlock => endBlock s
  | .env f _ _ _ _ => f s

def run (s : St) (ops : List Op) : St := ops.foldl step s

theorem inv_onSuccess {s : St} {r : Option St} (h : Inv s) (hr : ∀ s', r = some s' → Inv s') : Inv (onSuccess s r) := by
  cases r with
  | some s' => exact hr s' rfl
  | none => exact h

theorem inv_step {s : St} (op : Op) (h : Inv s) : Inv (step s op) := by
  cases op with
  | upsert a v e c => exact inv_onSuccess h fun _ hr => inv_upsertPool h hr
  | delegate a v c => exact inv_onSuccess h fun _ hr => inv_delegate h hr
  | undelegate a v c => exact inv_onSuccess h fun _ hr => inv_undelegate h hr
  | slash v sl => exact inv_onSuccess h fun _ hr => inv_slash h hr
  | claimUndel a id => exact inv_onSuccess h fun _ hr => inv_claimUndel h hr
  | claimMatured a => exact inv_onSuccess h fun _ hr => inv_claimMatured h hr
  | claimRewards a => exact inv_onSuccess h fun _ hr => inv_claimRewards h hr
  | transfer a b c => exact inv_onSuccess h fun _ hr => inv_transfer h hr
  | payFee a c => exact inv_onSuccess h fun _ hr => inv_payFee h hr
  | setCompound a all ds => exact h.congr rfl rfl rfl rfl
  | register a =>
    refine inv_onSuccess h fun s' hr => ?_
    rw [registerDelegator_frame hr]; exact h.congr rfl rfl rfl rfl
  | poolRewards v rw =>
    show Inv (match findPool s v with
      | some p => onSuccess s (increasePoolRewards s p rw)
      | none => s)
    split
    · exact inv_onSuccess h fun _ hr => inv_closed.increasePoolRewards h hr
    · exact h
  | allocate prev => exact inv_onSuccess h fun _ hr => inv_closed.allocate h hr
  | beginBlock hh t p c => exact inv_onSuccess h fun _ hr => inv_closed.beginBlock (fun h hb hp hl hu => h.congr hb hp hl hu) h hr
  | endBlock => exact h.congr rfl rfl rfl rfl
  | env f hb hp hl hu => exact h.congr (hb s) (hp s) (hl s) (hu s)

theorem inv_run {s : St} (ops : List Op) (h : Inv s) : Inv (run s ops) := by
  induction ops generalizing s with
  | nil => exact h
  | cons op rest ih => exact ih (inv_step op h)

end Sekai.MultiStake
