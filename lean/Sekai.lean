import Sekai.Base.Util
import Sekai.Base.Dec
import Sekai.Model.NetProps
import Sekai.Gen.NetProps
import Sekai.Model.Layer2
import Sekai.Model.Custody
import Sekai.Model.Basket
