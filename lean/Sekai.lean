import Sekai.Base.Util
import Sekai.Base.Dec
import Sekai.Model.NetProps
import Sekai.Gen.NetProps
